(* Lib/Py.v -- hand-written support library that the GENERATED files (Gen/*.v) are written against.
   It fixes the meaning of the Python / numpy constructs the translator (tools/py2coq.py) accepts:
   exceptions as an outcome monad, range(), tuples, bytearray assembled from range reads, zfpy decompression of
   such a buffer (the ZFP structural assumption: unit-wise, C order), numpy basic slicing, squeeze and
   "zeros then fill" assembly.  Values of decoded samples are PROVENANCE, never floats. *)
From Coq Require Import ZArith List Bool Lia.
Import ListNotations.
Open Scope Z_scope.

(* ---------- exceptions ---------- *)
Inductive exn := IndexErr | WrongDim | AssertErr | ValueErr | TypeErr | ZeroDivErr | RuntimeErr | IOErr | OtherErr.
Inductive outcome (A : Type) := Return (a : A) | Raise (e : exn).
Arguments Return {A} a.
Arguments Raise {A} e.

Definition bind {A B} (m : outcome A) (f : A -> outcome B) : outcome B :=
  match m with Return a => f a | Raise e => Raise e end.

Fixpoint mapM {A B} (f : A -> outcome B) (l : list A) : outcome (list B) :=
  match l with
  | [] => Return []
  | x :: xs => bind (f x) (fun y => bind (mapM f xs) (fun ys => Return (y :: ys)))
  end.

Fixpoint flat_mapM {A B} (f : A -> outcome (list B)) (l : list A) : outcome (list B) :=
  match l with
  | [] => Return []
  | x :: xs => bind (f x) (fun y => bind (flat_mapM f xs) (fun ys => Return (y ++ ys)))
  end.

(* ---------- range() ---------- *)
Fixpoint zrange_nat (lo : Z) (n : nat) : list Z :=
  match n with O => [] | S k => lo :: zrange_nat (lo + 1) k end.
(* range(lo, hi) with step 1; empty when hi <= lo *)
Definition zrange (lo hi : Z) : list Z := zrange_nat lo (Z.to_nat (hi - lo)).

(* Python's builtin helpers *)
Definition py_abs (x : Z) : Z := Z.abs x.
Definition py_min (a b : Z) : Z := Z.min a b.
Definition py_max (a b : Z) : Z := Z.max a b.

(* ---------- provenance of a decoded sample ---------- *)
(* PUnit off c : cell c (0..4^d-1, C order) of the compression unit whose code is the ub bytes of the DATA SECTION
   starting at byte off.  PZero: decoded from never-written (zero) bytes or from np.zeros.  PBad: the bytes of
   the unit do not come from one contiguous source (contents unknown). *)
Inductive prov := PUnit (off : Z) (c : Z) | PZero | PBad.

Definition prov_eqb (a b : prov) : bool :=
  match a, b with
  | PUnit o c, PUnit o' c' => (o =? o') && (c =? c')
  | PZero, PZero => true
  | PBad, PBad => true
  | _, _ => false
  end.

(* ---------- a bytearray assembled from range reads of the data section ---------- *)
(* one read = (offset in data section, length, position in the buffer) *)
Definition rd := (Z * Z * Z)%type.

Inductive usrc := SrcAt (off : Z) | SrcZero | SrcBad.

(* source of buffer bytes [lo,hi) after the slice assignments `reads` (in program order): a later assignment
   overwrites an earlier one, so the LAST read that touches the range decides; if it does not cover the whole
   range the bytes are a mixture (SrcBad). *)
Definition rd_disjoint (r : rd) (lo hi : Z) : bool :=
  match r with (_, len, pos) => (hi <=? pos) || (pos + len <=? lo) end.
Definition rd_covers (r : rd) (lo hi : Z) : bool :=
  match r with (_, len, pos) => (pos <=? lo) && (hi <=? pos + len) end.
Definition rd_src (r : rd) (lo : Z) : Z := match r with (off, _, pos) => off + (lo - pos) end.

Fixpoint unit_src (reads : list rd) (lo hi : Z) : usrc :=
  match reads with
  | [] => SrcZero
  | r :: rest =>
      match unit_src rest lo hi with
      | SrcZero => if rd_disjoint r lo hi then SrcZero
                   else if rd_covers r lo hi then SrcAt (rd_src r lo) else SrcBad
      | s => s
      end
  end.

(* ---------- arrays ---------- *)
(* An array value: its shape, the provenance of each cell (by index list), and the range reads (offset, length),
   in program order, that were issued to build it. *)
Record arrv := { av_shape : list Z; av_cell : list Z -> prov; av_reads : list (Z * Z) }.

Definition cdiv (a b : Z) : Z := (a + b - 1) / b.

(* unit number (C order over the grid of 4^d units) and cell number inside the unit, for an index list *)
Fixpoint unit_no (shape idx : list Z) (acc : Z) : Z :=
  match shape, idx with
  | s :: ss, i :: is_ => unit_no ss is_ (acc * cdiv s 4 + i / 4)
  | _, _ => acc
  end.
Fixpoint cell_no (idx : list Z) (acc : Z) : Z :=
  match idx with
  | i :: is_ => cell_no is_ (acc * 4 + i mod 4)
  | [] => acc
  end.
Fixpoint in_shape (shape idx : list Z) : bool :=
  match shape, idx with
  | [], [] => true
  | s :: ss, i :: is_ => (0 <=? i) && (i <? s) && in_shape ss is_
  | _, _ => false
  end.

(* bytes per 4^d unit at rate rn/rd bits per value: 4^d * rate / 8  (Python: int(4^d * rate) // 8) *)
Definition unit_bytes_of (rn rdn : Z) (d : nat) : Z := Z.quot (Z.pow 4 (Z.of_nat d) * rn) rdn / 8.

(* zfpy._decompress(bytes(buffer[lo:hi]), float32, shape, rate): THE ZFP STRUCTURAL ASSUMPTION.
   Cell idx of the result is cell (idx mod 4) of the unit number (idx / 4 in C order), whose code is the ub bytes at
   position unit_no * ub of the stream. *)
Definition decomp_cell (rn rdn : Z) (reads : list rd) (lo : Z) (shape idx : list Z) : prov :=
  if negb (in_shape shape idx) then PBad else
  let ub := unit_bytes_of rn rdn (length shape) in
  let k := unit_no shape idx 0 in
  match unit_src reads (lo + k * ub) (lo + (k + 1) * ub) with
  | SrcAt off => PUnit off (cell_no idx 0)
  | SrcZero => PZero
  | SrcBad => PBad
  end.

Definition reads_of (reads : list rd) : list (Z * Z) := map (fun r => match r with (o, l, _) => (o, l) end) reads.

Definition a_decomp (rn rdn : Z) (reads : list rd) (shape : list Z) : arrv :=
  {| av_shape := shape; av_cell := decomp_cell rn rdn reads 0 shape; av_reads := reads_of reads |}.

(* decompress of buffer[lo:hi] (no new reads are issued: the reads belong to whoever built the buffer) *)
Definition a_decomp_part (rn rdn : Z) (reads : list rd) (lo hi : Z) (shape : list Z) : arrv :=
  {| av_shape := shape; av_cell := decomp_cell rn rdn reads lo shape; av_reads := [] |}.

(* ---------- numpy basic indexing ---------- *)
Inductive sub := SIdx (i : Z) | SRng (lo hi : Z) | SFull.

(* Python slice bound normalisation for step 1 (PySlice_AdjustIndices) *)
Definition norm_bound (b dim : Z) : Z :=
  if b <? 0 then Z.max (b + dim) 0 else Z.min b dim.

(* result shape of a[subs] *)
Fixpoint slice_shape (shape : list Z) (subs : list sub) : list Z :=
  match shape, subs with
  | s :: ss, SIdx _ :: r => slice_shape ss r
  | s :: ss, SRng lo hi :: r => Z.max 0 (norm_bound hi s - norm_bound lo s) :: slice_shape ss r
  | s :: ss, SFull :: r => s :: slice_shape ss r
  | ss, [] => ss
  | [], _ => []
  end.
(* index into the source for an index into the result *)
Fixpoint slice_index (shape : list Z) (subs : list sub) (idx : list Z) : list Z :=
  match shape, subs with
  | s :: ss, SIdx i :: r => (if i <? 0 then i + s else i) :: slice_index ss r idx
  | s :: ss, SRng lo hi :: r =>
      match idx with j :: js => (norm_bound lo s + j) :: slice_index ss r js | [] => [] end
  | s :: ss, SFull :: r =>
      match idx with j :: js => j :: slice_index ss r js | [] => [] end
  | ss, [] => idx
  | [], _ => []
  end.
(* integer subscripts must be in range (numpy raises IndexError), and there must not be more subscripts than axes *)
Fixpoint subs_ok (shape : list Z) (subs : list sub) : bool :=
  match shape, subs with
  | s :: ss, SIdx i :: r => (- s <=? i) && (i <? s) && subs_ok ss r
  | s :: ss, _ :: r => subs_ok ss r
  | _, [] => true
  | [], _ :: _ => false
  end.

Definition a_slice (a : arrv) (subs : list sub) : outcome arrv :=
  if negb (subs_ok (av_shape a) subs) then Raise IndexErr else
  let sh := slice_shape (av_shape a) subs in
  Return {| av_shape := sh;
            av_cell := fun idx => if in_shape sh idx then av_cell a (slice_index (av_shape a) subs idx) else PBad;
            av_reads := av_reads a |}.

(* np.squeeze: drop axes of length 1 *)
Fixpoint squeeze_shape (shape : list Z) : list Z :=
  match shape with
  | [] => []
  | s :: ss => if s =? 1 then squeeze_shape ss else s :: squeeze_shape ss
  end.
Fixpoint unsqueeze_index (shape idx : list Z) : list Z :=
  match shape with
  | [] => idx
  | s :: ss => if s =? 1 then 0 :: unsqueeze_index ss idx
               else match idx with j :: js => j :: unsqueeze_index ss js | [] => [] end
  end.
Definition a_squeeze (a : arrv) : arrv :=
  let sh := squeeze_shape (av_shape a) in
  {| av_shape := sh;
     av_cell := fun idx => if in_shape sh idx then av_cell a (unsqueeze_index (av_shape a) idx) else PBad;
     av_reads := av_reads a |}.

(* ---------- np.zeros(shape) followed by a sequence of  target[subs] = value  ---------- *)
(* does idx of the target fall inside subs?  if so, the index into the assigned value *)
Fixpoint fill_hit (shape : list Z) (subs : list sub) (idx : list Z) : option (list Z) :=
  match shape, subs, idx with
  | s :: ss, SIdx i :: r, j :: js =>
      if j =? (if i <? 0 then i + s else i) then fill_hit ss r js else None
  | s :: ss, SRng lo hi :: r, j :: js =>
      if (norm_bound lo s <=? j) && (j <? norm_bound hi s)
      then option_map (cons (j - norm_bound lo s)) (fill_hit ss r js) else None
  | s :: ss, SFull :: r, j :: js => option_map (cons j) (fill_hit ss r js)
  | _, [], js => Some js
  | _, _, _ => None
  end.

Definition list_eqb (a b : list Z) : bool :=
  (Nat.eqb (length a) (length b)) && forallb (fun p => fst p =? snd p) (combine a b).

(* numpy accepts  target[subs] = v  when v's shape equals the selected shape, or v is 0-d (broadcast).
   Otherwise ValueError. *)
Definition fill_ok (shape : list Z) (f : list sub * arrv) : bool :=
  subs_ok shape (fst f) &&
  (list_eqb (slice_shape shape (fst f)) (av_shape (snd f)) || Nat.eqb (length (av_shape (snd f))) 0).

(* later assignments overwrite earlier ones: the LAST fill that contains idx decides *)
Fixpoint fill_lookup (shape : list Z) (fills : list (list sub * arrv)) (idx : list Z) : option prov :=
  match fills with
  | [] => None
  | (subs, v) :: rest =>
      match fill_lookup shape rest idx with
      | Some p => Some p
      | None =>
          match fill_hit shape subs idx with
          | Some j => Some (av_cell v (if Nat.eqb (length (av_shape v)) 0 then [] else j))
          | None => None
          end
      end
  end.
Definition fill_cell (shape : list Z) (fills : list (list sub * arrv)) (idx : list Z) : prov :=
  match fill_lookup shape fills idx with Some p => p | None => PZero end.

Definition a_zeros_fill (shape : list Z) (fills : list (list sub * arrv)) : outcome arrv :=
  if negb (forallb (fill_ok shape) fills) then Raise ValueErr else
  Return {| av_shape := shape;
            av_cell := fun idx => if in_shape shape idx then fill_cell shape fills idx else PBad;
            av_reads := flat_map (fun f => av_reads (snd f)) fills |}.

(* an array whose reads are replaced (used when a buffer's reads are accounted to the caller) *)
Definition a_with_reads (a : arrv) (r : list (Z * Z)) : arrv :=
  {| av_shape := av_shape a; av_cell := av_cell a; av_reads := r |}.

(* ---------- small helpers used by generated code ---------- *)
Definition nth_z (l : list Z) (n : nat) : Z := nth n l 0.
Definition bool_of_Zneq0 (x : Z) : bool := negb (x =? 0).
