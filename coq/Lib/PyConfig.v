(* Lib/PyConfig.v -- hand-written support library for Gen/Config.v (C19): the meaning of the Python numeric
   constructs that tools/genx_config.py accepts when it translates seismic_zfp.utils.define_blockshape*.

   Numbers.  A Python number (int or float) is modelled by its exact rational value in Q (stdlib QArith); the
   int/float distinction of a *result* (4 versus 4.0) is not modelled.  Arithmetic is exact.  CPython's binary64
   arithmetic agrees with exact arithmetic whenever operands and result are dyadic rationals of fewer than 53
   significant bits, which is the case on every path that ends in `Return` (there the rate is one of eight powers
   of two and the block dimensions are powers of two whose product is at most 2^17) and for the integer block
   dimensions of the property's grid; for the remaining inputs (3, 0.3, -3 ...) agreement of the raise/return
   outcome is CHECKED by tools/checks/config.py over the whole grid (trusted base).

   Division by zero is an explicit error outcome, as in Python (`/` and `//` raise ZeroDivisionError), never
   Coq's x/0 = 0.

   The argument bits_per_voxel is dynamically typed (int, float or str): type pyarg.  A str is represented by
   what float(s) makes of it (None = float() raises ValueError); the harness obtains that value with Python's own
   float(), which is not code under test. *)
From Coq Require Import ZArith QArith Qround List Bool Lia.
From SZ Require Import Lib.Py.
Import ListNotations.
Open Scope Z_scope.

Inductive pyarg := AInt (z : Z) | AFloat (q : Q) | AStr (v : option Q).

(* `x == k` for the raw argument and an int literal k: a str is never equal to an int *)
Definition arg_eq_int (a : pyarg) (k : Z) : bool :=
  match a with
  | AInt z => z =? k
  | AFloat q => Qeq_bool q (inject_Z k)
  | AStr _ => false
  end.

(* the idiom `if isinstance(x, str): x = float(x)`; afterwards x is a number *)
Definition arg_to_num (a : pyarg) : outcome Q :=
  match a with
  | AInt z => Return (inject_Z z)
  | AFloat q => Return q
  | AStr (Some q) => Return q
  | AStr None => Raise ValueErr
  end.

Definition Qlt_bool (a b : Q) : bool := negb (Qle_bool b a).

(* a / b and a // b : ZeroDivisionError when b == 0 *)
Definition q_truediv (a b : Q) : outcome Q :=
  if Qeq_bool b 0 then Raise ZeroDivErr else Return (a / b)%Q.
Definition q_floordiv (a b : Q) : outcome Q :=
  if Qeq_bool b 0 then Raise ZeroDivErr else Return (inject_Z (Qfloor (a / b))).
Definition z_floordiv (a b : Z) : outcome Z :=
  if b =? 0 then Raise ZeroDivErr else Return (a / b).

(* int(x): truncation toward zero *)
Definition q_int (a : Q) : Z := Z.quot (Qnum a) (Zpos (Qden a)).

(* sum([1 for n in <items> if <cond n>]) given the list of the conditions' values *)
Definition py_count (l : list bool) : Z := Z.of_nat (length (filter (fun b : bool => b) l)).

(* x in (c1, c2, ...) for numbers: some element compares equal *)
Definition q_in (x : Q) (l : list Q) : bool := existsb (Qeq_bool x) l.
